//! C15 Comparing and hashing Recon text agrees with comparing parsed values.
mod head_model;

use bytes::BytesMut;
use proptest::prelude::*;
use serde::{Deserialize, Serialize};
use std::collections::hash_map::DefaultHasher;
use std::hash::Hasher;
use swimos_agent_protocol::MapOperation;
use swimos_model::Value;
use swimos_recon::parser::parse_recognize;
use swimos_recon::{compare_recon_values, print_recon, print_recon_compact, print_recon_pretty, recon_hash};
use swimos_runtime::verif_hooks::MapBackpressure;
use vcommon::{Ctx, Verdict};
use vgen::recon_text::*;
use vgen::*;

/// A second, structurally different hasher (FNV over the byte stream fed by `Hash`).
struct Fnv(u64);
impl Hasher for Fnv {
    fn finish(&self) -> u64 {
        self.0
    }
    fn write(&mut self, bytes: &[u8]) {
        for b in bytes {
            self.0 ^= *b as u64;
            self.0 = self.0.wrapping_mul(0x100000001b3);
        }
    }
}


/// Run an oracle, reporting a panic in the code under test with a signature that does not depend
/// on where the repository is checked out (`panic:<path below the repo root>:<line>`).
fn guard<C>(f: impl Fn(&C) -> Verdict, case: &C) -> Verdict {
    match vcommon::guarded(|| f(case)) {
        Ok(v) => v,
        Err(mut fail) => {
            if let Some(i) = fail.sig.find("/repo/") {
                fail.sig = format!("panic:{}", &fail.sig[i + "/repo/".len()..]);
            }
            let mut v = Verdict::new();
            v.failures.push(fail);
            v
        }
    }
}

fn hashes(text: &str) -> (u64, u64) {
    let mut h1 = DefaultHasher::new();
    recon_hash(text, &mut h1);
    let mut h2 = Fnv(0xcbf29ce484222325);
    recon_hash(text, &mut h2);
    (h1.finish(), h2.finish())
}

fn parse(text: &str) -> Option<Value> {
    parse_recognize::<Value>(text, false).ok()
}

#[derive(Clone, Debug, Serialize, Deserialize)]
enum BSource {
    /// the same model value, formatted differently
    Reformat,
    /// one of the three printers applied to the parse of text a (0..3)
    Printer(u8),
    /// a small semantic edit of a
    NearMiss(Vec<u8>),
    /// an unrelated value
    Other(V),
    /// free text
    Soup(String),
}

#[derive(Clone, Debug, Serialize, Deserialize)]
struct PairCase {
    a: V,
    style_a: Vec<u8>,
    muts_a: Vec<Mut>,
    b: BSource,
    style_b: Vec<u8>,
    muts_b: Vec<Mut>,
}

impl PairCase {
    fn texts(&self) -> (String, String) {
        let ta = mutate_text(&render(&self.a, &self.style_a), &self.muts_a);
        let tb = match &self.b {
            BSource::Reformat => render(&self.a, &self.style_b),
            BSource::Printer(i) => match parse(&ta) {
                Some(v) => match i % 3 {
                    0 => format!("{}", print_recon(&v)),
                    1 => format!("{}", print_recon_compact(&v)),
                    _ => format!("{}", print_recon_pretty(&v)),
                },
                None => render(&self.a, &self.style_b),
            },
            BSource::NearMiss(tape) => render(&near_miss(&self.a, tape), &self.style_b),
            BSource::Other(v) => render(v, &self.style_b),
            BSource::Soup(s) => s.clone(),
        };
        (ta, mutate_text(&tb, &self.muts_b))
    }
}

// ---------------------------------------------------------------------------------------------
// Cells: a data-free description of what distinguishes the two texts / values, used in signatures

fn has_attr_body_or_nesting(text: &str) -> bool {
    // an attribute with a body, or a record nested in a record
    let mut depth = 0;
    let mut in_str = false;
    let mut esc = false;
    for c in text.chars() {
        if in_str {
            if esc {
                esc = false;
            } else if c == '\\' {
                esc = true;
            } else if c == '"' {
                in_str = false;
            }
            continue;
        }
        match c {
            '"' => in_str = true,
            '(' => return true,
            '{' => {
                depth += 1;
                if depth >= 2 {
                    return true;
                }
            }
            '}' => depth -= 1,
            _ => {}
        }
    }
    false
}

/// Features of one text that are known to matter to the comparator / hasher heuristics.
#[derive(Default, Clone, Copy)]
struct TextFeats {
    /// a structural character inside a string literal that is itself inside an attribute body
    delims_in_string_in_attr_body: bool,
    /// a new line (outside string literals) inside an attribute body
    newline_in_attr_body: bool,
    /// a new line outside string literals anywhere
    newline: bool,
    attrs: bool,
    attr_body: bool,
    braces: bool,
    slots: bool,
    empty_items: bool,
}

fn text_feats(t: &str) -> TextFeats {
    let mut f = TextFeats::default();
    let mut in_str = false;
    let mut esc = false;
    let mut parens = 0usize;
    let mut prev_sig = ' ';
    for c in t.chars() {
        if in_str {
            if esc {
                esc = false;
            } else if c == '\\' {
                esc = true;
            } else if c == '"' {
                in_str = false;
            } else if parens > 0 && matches!(c, ',' | ';' | ':' | '{' | '}' | '(' | ')') {
                f.delims_in_string_in_attr_body = true;
            }
            continue;
        }
        match c {
            '"' => in_str = true,
            '(' => {
                parens += 1;
                f.attr_body = true;
            }
            ')' => parens = parens.saturating_sub(1),
            '@' => f.attrs = true,
            '{' => f.braces = true,
            ':' => f.slots = true,
            '\n' | '\r' => {
                f.newline = true;
                if parens > 0 {
                    f.newline_in_attr_body = true;
                }
            }
            _ => {}
        }
        if matches!(c, ',' | ';' | ':' | '}' | ')') && matches!(prev_sig, ',' | ';' | ':' | '{' | '(') {
            f.empty_items = true;
        }
        if !c.is_whitespace() {
            prev_sig = c;
        }
    }
    f
}

/// Do two `Value::eq`-equal values differ in the sign of a floating point zero somewhere?
fn signed_zero_differs(a: &Value, b: &Value) -> bool {
    use swimos_model::Item;
    match (a, b) {
        (Value::Float64Value(x), Value::Float64Value(y)) => *x == 0.0 && *y == 0.0 && x.to_bits() != y.to_bits(),
        (Value::Record(a1, i1), Value::Record(a2, i2)) => {
            a1.iter().zip(a2).any(|(x, y)| signed_zero_differs(&x.value, &y.value))
                || i1.iter().zip(i2).any(|(x, y)| match (x, y) {
                    (Item::ValueItem(x), Item::ValueItem(y)) => signed_zero_differs(x, y),
                    (Item::Slot(k1, v1), Item::Slot(k2, v2)) => signed_zero_differs(k1, k2) || signed_zero_differs(v1, v2),
                    _ => false,
                })
        }
        _ => false,
    }
}

/// Cell for two texts that are expected to be equal: the first known-relevant feature, else a
/// coarse list of the syntax used.
fn text_cell(a: &str, b: &str) -> String {
    text_cell_for(a, b, false)
}

/// Rewrite every line break (outside string literals) inside an attribute body as `,` (or as a
/// space where a comma would change the value), keeping the parsed value unchanged.
fn without_newlines_in_attr_bodies(t: &str) -> String {
    let Some(original) = parse(t) else { return t.to_string() };
    let mut chars: Vec<char> = t.chars().collect();
    let mut i = 0;
    loop {
        // recompute the lexical state up to i
        let mut in_str = false;
        let mut esc = false;
        let mut parens = 0usize;
        let mut target = None;
        for (k, c) in chars.iter().enumerate() {
            if in_str {
                if esc {
                    esc = false;
                } else if *c == '\\' {
                    esc = true;
                } else if *c == '"' {
                    in_str = false;
                }
                continue;
            }
            match c {
                '"' => in_str = true,
                '(' => parens += 1,
                ')' => parens = parens.saturating_sub(1),
                '\n' | '\r' if parens > 0 && k >= i => {
                    target = Some(k);
                    break;
                }
                _ => {}
            }
        }
        let Some(k) = target else { break };
        let mut done = false;
        for repl in [',', ' '] {
            let keep = chars[k];
            chars[k] = repl;
            let candidate: String = chars.iter().collect();
            if parse(&candidate).map(|v| structurally_same(&v, &original)).unwrap_or(false) {
                done = true;
                break;
            }
            chars[k] = keep;
        }
        let _ = done;
        i = k + 1;
    }
    chars.into_iter().collect()
}

fn structurally_same(a: &Value, b: &Value) -> bool {
    vgen::structural_eq(a, b)
}

/// Is a difference of `recon_hash` between two equal-comparing texts explained by line breaks used
/// as item separators inside attribute bodies (which the hasher's `is_implicit_record` look-ahead
/// does not recognise)? True iff the hashes agree once those line breaks are written as commas.
fn newline_explains_hash_difference(a: &str, b: &str) -> bool {
    let (na, nb) = (without_newlines_in_attr_bodies(a), without_newlines_in_attr_bodies(b));
    let (fa, fb) = (text_feats(&na), text_feats(&nb));
    !fa.newline_in_attr_body && !fb.newline_in_attr_body && (na != a || nb != b) && hashes(&na) == hashes(&nb)
}

fn text_cell_for(a: &str, b: &str, hash_law: bool) -> String {
    let (fa, fb) = (text_feats(a), text_feats(b));
    if hash_law && (fa.newline_in_attr_body || fb.newline_in_attr_body) && newline_explains_hash_difference(a, b) {
        return "newline-separator-in-attr-body".into();
    }
    if fa.delims_in_string_in_attr_body || fb.delims_in_string_in_attr_body {
        return "delims-in-string-in-attr-body".into();
    }
    if let (Some(pa), Some(pb)) = (parse(a), parse(b)) {
        if signed_zero_differs(&pa, &pb) {
            return "float-signed-zero".into();
        }
    }
    let mut all = vec![];
    let or = |x: bool, y: bool| x || y;
    if or(fa.attr_body, fb.attr_body) {
        all.push("attr-body");
    } else if or(fa.attrs, fb.attrs) {
        all.push("attrs");
    }
    if or(fa.braces, fb.braces) {
        all.push("braces");
    }
    if or(fa.slots, fb.slots) {
        all.push("slots");
    }
    if or(fa.newline_in_attr_body, fb.newline_in_attr_body) {
        all.push("newlines-in-attr-body");
    } else if or(fa.newline, fb.newline) {
        all.push("newlines");
    }
    if or(fa.empty_items, fb.empty_items) {
        all.push("empty-items");
    }
    if all.is_empty() {
        "scalars".into()
    } else {
        all.join("+")
    }
}

fn kind_of(v: &Value) -> &'static str {
    match v {
        Value::Extant => "Extant",
        Value::Int32Value(_) => "Int32",
        Value::Int64Value(_) => "Int64",
        Value::UInt32Value(_) => "UInt32",
        Value::UInt64Value(_) => "UInt64",
        Value::Float64Value(_) => "Float64",
        Value::BooleanValue(_) => "Boolean",
        Value::BigInt(_) => "BigInt",
        Value::BigUint(_) => "BigUint",
        Value::Text(_) => "Text",
        Value::Data(_) => "Data",
        Value::Record(_, _) => "Record",
    }
}

/// First place where two parsed values differ by `Value::eq` (data-free).
fn value_diff(a: &Value, b: &Value) -> Option<String> {
    use swimos_model::Item;
    if a == b {
        return None;
    }
    match (a, b) {
        (Value::Record(a1, i1), Value::Record(a2, i2)) => {
            for (x, y) in a1.iter().zip(a2) {
                if x.name != y.name {
                    return Some("attr-name".into());
                }
                if let Some(d) = value_diff(&x.value, &y.value) {
                    return Some(format!("attr-value/{}", d));
                }
            }
            if a1.len() != a2.len() {
                return Some("attr-count".into());
            }
            for (x, y) in i1.iter().zip(i2) {
                match (x, y) {
                    (Item::ValueItem(x), Item::ValueItem(y)) => {
                        if let Some(d) = value_diff(x, y) {
                            return Some(format!("item/{}", d));
                        }
                    }
                    (Item::Slot(k1, v1), Item::Slot(k2, v2)) => {
                        if let Some(d) = value_diff(k1, k2) {
                            return Some(format!("slot-key/{}", d));
                        }
                        if let Some(d) = value_diff(v1, v2) {
                            return Some(format!("slot-value/{}", d));
                        }
                    }
                    _ => return Some("item-vs-slot".into()),
                }
            }
            Some("item-count".into())
        }
        _ => {
            let (k1, k2) = (kind_of(a), kind_of(b));
            let (k1, k2) = if k1 <= k2 { (k1, k2) } else { (k2, k1) };
            Some(format!("{}~{}", k1, k2))
        }
    }
}

/// The sequence of attribute names, leaves and slot markers of a value with the record body
/// boundaries left out: what remains of the parse event stream when StartBody / EndRecord are ignored.
fn flat(v: &Value, out: &mut Vec<String>) {
    use swimos_model::Item;
    match v {
        Value::Record(attrs, items) => {
            for a in attrs {
                out.push(format!("@{:?}(", a.name.as_str()));
                match &a.value {
                    Value::Extant => {}
                    ow => flat(ow, out),
                }
                out.push(")".into());
            }
            for i in items {
                match i {
                    Item::ValueItem(x) => flat(x, out),
                    Item::Slot(k, x) => {
                        flat(k, out);
                        out.push(":".into());
                        flat(x, out);
                    }
                }
            }
        }
        ow => out.push(format!("{:?}", from_value_raw(ow))),
    }
}

/// Cell for two values that are not equal: do they differ only in how the same leaves are nested?
///
/// `head-summed-sizes`: the frozen copy of the repository's comparison algorithm (`head_model.rs`)
/// accepts the two event streams as equal, i.e. the pair is an instance of the listed defect (record
/// boundaries skipped, only summed sizes of merged frames compared). Any other false positive gets a
/// different signature.
fn unequal_cell(ta: &str, tb: &str, a: &Value, b: &Value) -> String {
    if let (Some(ea), Some(eb)) = (head_model::events(ta), head_model::events(tb)) {
        if head_model::head_compare(&ea, &eb) == Some(true) && head_model::head_compare(&eb, &ea) == Some(true) {
            return "head-summed-sizes".into();
        }
    }
    let (mut fa, mut fb) = (vec![], vec![]);
    flat(a, &mut fa);
    flat(b, &mut fb);
    if fa == fb {
        "nesting-only(not-accepted-by-head-algorithm)".into()
    } else {
        last_two(&value_diff(a, b).unwrap_or_default())
    }
}

fn last_two(d: &str) -> String {
    let parts: Vec<&str> = d.split('/').collect();
    let n = parts.len();
    if n <= 2 {
        d.to_string()
    } else {
        parts[n - 2..].join("/")
    }
}

// ---------------------------------------------------------------------------------------------

struct PairFacts {
    pa: Option<Value>,
    pb: Option<Value>,
    /// what the property says the comparison must return
    expected_equal: bool,
}

fn facts(ta: &str, tb: &str) -> PairFacts {
    let pa = parse(ta);
    let pb = parse(tb);
    let expected_equal = match (&pa, &pb) {
        (Some(x), Some(y)) => x == y,
        _ => ta == tb,
    };
    PairFacts { pa, pb, expected_equal }
}

fn check_texts(v: &mut Verdict, ta: &str, tb: &str) -> PairFacts {
    let f = facts(ta, tb);
    let both_valid = f.pa.is_some() && f.pb.is_some();
    let cmp_ab = compare_recon_values(ta, tb);
    let cmp_ba = compare_recon_values(tb, ta);
    let validity = match (f.pa.is_some(), f.pb.is_some()) {
        (true, true) => "both-valid",
        (false, false) => "both-invalid",
        _ => "one-invalid",
    };
    v.class(validity);
    v.class_if(f.expected_equal, "expected-equal");
    v.class_if(f.expected_equal && ta != tb, "equal-but-different-text");
    if cmp_ab != cmp_ba {
        v.fail(
            format!("cmp-asymmetric:{}:{}", validity, text_cell(ta, tb)),
            format!("compare({:?}, {:?}) = {} but the reverse = {}", ta, tb, cmp_ab, cmp_ba),
        );
    }
    for (t, p) in [(ta, &f.pa), (tb, &f.pb)] {
        if !compare_recon_values(t, t) {
            v.fail(
                format!("cmp-irreflexive:{}", if p.is_some() { "valid" } else { "invalid" }),
                format!("compare({:?}, itself) = false", t),
            );
        }
    }
    if cmp_ab != f.expected_equal {
        if both_valid {
            let (pa, pb) = (f.pa.as_ref().unwrap(), f.pb.as_ref().unwrap());
            if f.expected_equal {
                v.fail(
                    format!("cmp-false-negative:{}", text_cell(ta, tb)),
                    format!(
                        "{:?} and {:?} both parse to {:?} (== {:?}) but compare_recon_values says they differ",
                        ta,
                        tb,
                        from_value_raw(pa),
                        from_value_raw(pb)
                    ),
                );
            } else {
                v.class(if ta.contains('@') || tb.contains('@') { "false-positive-with-attrs" } else { "false-positive-without-attrs" });
                if std::env::var_os("VERIF_C15_TRACE").is_some() {
                    eprintln!("false-positive\t{}\t{}\t{}", unequal_cell(ta, tb, pa, pb), ta, tb);
                }
                v.fail(
                    format!(
                        "cmp-false-positive:{}",
                        unequal_cell(ta, tb, pa, pb)
                    ),
                    format!(
                        "{:?} parses to {:?}, {:?} parses to {:?} (not equal) but compare_recon_values says they are equal",
                        ta,
                        from_value_raw(pa),
                        tb,
                        from_value_raw(pb)
                    ),
                );
            }
        } else {
            v.fail(
                format!("invalid-not-string-eq:{}:{}", validity, if cmp_ab { "equal" } else { "unequal" }),
                format!(
                    "not both valid Recon (a valid: {}, b valid: {}): compare({:?}, {:?}) = {} but string equality = {}",
                    f.pa.is_some(),
                    f.pb.is_some(),
                    ta,
                    tb,
                    cmp_ab,
                    ta == tb
                ),
            );
        }
    }
    // (when the comparison is wrongly `true` the differing hashes are a consequence, not a second defect)
    if cmp_ab && f.expected_equal && hashes(ta) != hashes(tb) {
        let cell = if both_valid { text_cell_for(ta, tb, true) } else { validity.to_string() };
        v.fail(
            format!("hash-differs:{}", cell),
            format!("compare({:?}, {:?}) = true but recon_hash differs", ta, tb),
        );
    }
    // "strings that represent the same value have the same hash" is implied for valid strings
    if both_valid && f.expected_equal && !cmp_ab && hashes(ta) != hashes(tb) {
        v.class("equal-values-hash-differs(uncompared)");
    }
    if ta != tb && (has_attr_body_or_nesting(ta) || has_attr_body_or_nesting(tb)) {
        v.nontrivial();
    }
    f
}

fn check_pair(case: &PairCase) -> Verdict {
    let mut v = Verdict::new();
    let (ta, tb) = case.texts();
    v.class(match case.b {
        BSource::Reformat => "b=reformat",
        BSource::Printer(_) => "b=printer",
        BSource::NearMiss(_) => "b=near-miss",
        BSource::Other(_) => "b=other",
        BSource::Soup(_) => "b=soup",
    });
    check_texts(&mut v, &ta, &tb);
    v
}

// ---------------------------------------------------------------------------------------------
// Through the runtime: MapBackpressure relieves backpressure per ReconKey

fn check_backpressure(case: &PairCase) -> Verdict {
    let (ta, tb) = case.texts();
    check_backpressure_texts(&TextPair(ta, tb))
}

fn check_backpressure_texts(case: &TextPair) -> Verdict {
    let mut v = Verdict::new();
    let (ta, tb) = (case.0.clone(), case.1.clone());
    let f = facts(&ta, &tb);
    v.class_if(f.expected_equal, "expected-one-key");
    v.class_if(f.expected_equal && ta != tb, "equal-but-different-text");
    let mut bp = MapBackpressure::default();
    let key = |s: &str| BytesMut::from(s.as_bytes());
    let val = |s: &str| BytesMut::from(s.as_bytes());
    let _ = bp.push(MapOperation::Update {
        key: key(&ta),
        value: val("1"),
    });
    let _ = bp.push(MapOperation::Update {
        key: key("\"#another key#\""),
        value: val("2"),
    });
    let _ = bp.push(MapOperation::Update {
        key: key(&tb),
        value: val("3"),
    });
    let mut out = vec![];
    while let Some(op) = bp.pop() {
        match op {
            MapOperation::Update { key, value } => out.push((
                String::from_utf8_lossy(key.as_ref()).to_string(),
                String::from_utf8_lossy(value.as_ref()).to_string(),
            )),
            MapOperation::Remove { key } => out.push((String::from_utf8_lossy(key.as_ref()).to_string(), "<remove>".into())),
            MapOperation::Clear => out.push(("<clear>".into(), String::new())),
        }
    }
    // the marker key might itself be equal to a or b only if they are that very string
    let marker = "\"#another key#\"";
    let involves_marker = parse(marker).map(|m| f.pa.as_ref() == Some(&m) || f.pb.as_ref() == Some(&m)).unwrap_or(false)
        || ta == marker
        || tb == marker;
    if involves_marker {
        v.class("skipped-marker-collision");
        return v;
    }
    let expected: Vec<(String, String)> = if f.expected_equal {
        vec![(ta.clone(), "3".into()), (marker.into(), "2".into())]
    } else {
        vec![(ta.clone(), "1".into()), (marker.into(), "2".into()), (tb.clone(), "3".into())]
    };
    // (which of the two spellings the merged entry keeps is not part of the property)
    let matches_expected = out == expected || (f.expected_equal && out == vec![(tb.clone(), "3".to_string()), (marker.to_string(), "2".to_string())]);
    if !matches_expected {
        let both_valid = f.pa.is_some() && f.pb.is_some();
        let what = if f.expected_equal { "split-equal-keys" } else { "merged-distinct-keys" };
        let cell = if !both_valid {
            "invalid".to_string()
        } else if f.expected_equal {
            text_cell_for(&ta, &tb, true)
        } else {
            unequal_cell(&ta, &tb, f.pa.as_ref().unwrap(), f.pb.as_ref().unwrap())
        };
        v.fail(
            format!("backpressure:{}:{}", what, cell),
            format!(
                "updates for keys {:?}, {:?}, {:?} queued; expected {:?} to be sent, got {:?}",
                ta, marker, tb, expected, out
            ),
        );
    }
    if ta != tb && (has_attr_body_or_nesting(&ta) || has_attr_body_or_nesting(&tb)) {
        v.nontrivial();
    }
    v
}

// ---------------------------------------------------------------------------------------------

fn arb_pair() -> BoxedStrategy<PairCase> {
    let value = prop_oneof![5 => arb_small(), 2 => arb_value(true), 1 => arb_scalar(true), 1 => arb_deep(12)];
    let b = prop_oneof![
        4 => Just(BSource::Reformat),
        2 => (0u8..3).prop_map(BSource::Printer),
        4 => proptest::collection::vec(any::<u8>(), 2..8).prop_map(BSource::NearMiss),
        1 => arb_small().prop_map(BSource::Other),
        1 => arb_soup(12).prop_map(BSource::Soup),
    ];
    let muts = || prop_oneof![6 => Just(vec![]), 1 => arb_muts(2)];
    (value, arb_style(), muts(), b, arb_style(), muts())
        .prop_map(|(a, style_a, muts_a, b, style_b, muts_b)| PairCase {
            a,
            style_a,
            muts_a,
            b,
            style_b,
            muts_b,
        })
        .boxed()
}

/// Small values rich in attributes / bodies (where the comparator's heuristics live).
fn arb_small() -> BoxedStrategy<V> {
    let leaf = prop_oneof![
        3 => proptest::sample::select(core_scalars()),
        2 => arb_scalar(true),
        2 => proptest::sample::select(vec![
            V::text("x,y"), V::text("a:b"), V::text("{"), V::text("("), V::text(")"), V::text("}"), V::text(";"),
            V::text("@a"), V::text("a b"), V::text("\"")
        ]),
    ];
    leaf.prop_recursive(4, 16, 3, |inner| {
        let item = prop_oneof![
            3 => inner.clone().prop_map(I::Val),
            2 => (inner.clone(), inner.clone()).prop_map(|(k, v)| I::Slot(k, v)),
        ];
        (
            proptest::collection::vec((prop_oneof![Just("a".to_string()), Just("b".to_string()), arb_ident()], inner), 0..3),
            proptest::collection::vec(item, 0..3),
        )
            .prop_map(|(a, i)| V::Record(a, i))
    })
    .boxed()
}

/// All "skeleton" values with exactly `n` nodes: leaves 1 / {} , attribute name `a`, slot key `k`.
fn skeletons(n: usize, memo: &mut Vec<Vec<V>>) -> Vec<V> {
    if let Some(v) = memo.get(n) {
        if !v.is_empty() || n == 0 {
            return v.clone();
        }
    }
    let out = if n == 1 {
        vec![V::I32(1), V::Record(vec![], vec![])]
    } else {
        // a record whose children (attribute values, items) have n-1 nodes in total
        let mut out = vec![];
        // shapes: (number of attrs 0..=2, number of items 0..=3)
        for na in 0..=2usize {
            for ni in 0..=3usize {
                let k = na + ni;
                if k == 0 || k > n - 1 {
                    continue;
                }
                // compositions of n-1 into k positive parts
                let mut parts = vec![1usize; k];
                loop {
                    if parts.iter().sum::<usize>() == n - 1 {
                        // cartesian product of children
                        let choices: Vec<Vec<V>> = parts.iter().map(|p| skeletons(*p, memo)).collect();
                        let mut idx = vec![0usize; k];
                        'prod: loop {
                            let kids: Vec<V> = idx.iter().zip(&choices).map(|(i, c)| c[*i].clone()).collect();
                            let attrs: Vec<(String, V)> = kids[..na].iter().map(|x| ("a".to_string(), x.clone())).collect();
                            // items: plain values, and (variant) the last item as a slot k: value
                            let items: Vec<I> = kids[na..].iter().map(|x| I::Val(x.clone())).collect();
                            out.push(V::Record(attrs.clone(), items.clone()));
                            if ni >= 1 {
                                let mut items2 = items.clone();
                                if let Some(I::Val(x)) = items2.pop() {
                                    items2.push(I::Slot(V::text("k"), x));
                                }
                                out.push(V::Record(attrs, items2));
                            }
                            let mut d = 0;
                            loop {
                                if d == k {
                                    break 'prod;
                                }
                                idx[d] += 1;
                                if idx[d] < choices[d].len() {
                                    break;
                                }
                                idx[d] = 0;
                                d += 1;
                            }
                        }
                    }
                    // next composition (odometer over 1..=n-1)
                    let mut d = 0;
                    loop {
                        if d == k {
                            break;
                        }
                        parts[d] += 1;
                        if parts[d] <= n - 1 {
                            break;
                        }
                        parts[d] = 1;
                        d += 1;
                    }
                    if d == k {
                        break;
                    }
                }
            }
        }
        // an attribute without a value also counts as one node
        for inner in skeletons(n - 1, memo) {
            if let V::Record(attrs, items) = inner {
                let mut a2 = vec![("a".to_string(), V::Extant)];
                a2.extend(attrs);
                if a2.len() <= 2 {
                    out.push(V::Record(a2, items));
                }
            } else {
                out.push(V::Record(vec![("a".to_string(), V::Extant)], vec![I::Val(inner)]));
            }
        }
        let mut seen = std::collections::HashSet::new();
        out.retain(|x| seen.insert(format!("{:?}", x)));
        out
    };
    while memo.len() <= n {
        memo.push(vec![]);
    }
    memo[n] = out.clone();
    out
}

#[derive(Clone, Debug, Serialize, Deserialize)]
struct TextPair(String, String);

fn check_text_pair(case: &TextPair) -> Verdict {
    let mut v = Verdict::new();
    check_texts(&mut v, &case.0, &case.1);
    v
}

fn main() {
    let args: Vec<String> = std::env::args().skip(1).collect();
    let mut ctx = Ctx::new("C15", &args);
    ctx.rule(
        "pairs (a,b) of Recon texts: a = grammar rendering of a generated value (optionally mutated); b = another \
         rendering of the same value (whitespace, separators, quoting, escapes, numeric spellings, implicit / \
         explicit attribute and record bodies), one of the three printers applied to parse(a), a near-miss edit \
         (item moved across a nesting boundary, number changed kind, slot <-> two items, ...), an unrelated value, \
         or free text; both optionally mutated into invalid text. Oracle: parse_recognize::<Value> + Value::eq. \
         Non-trivial = the two texts are not byte-equal and at least one uses an attribute body or a nested record. \
         Distinct by Debug form of the case.",
    );
    ctx.assume("a string is valid Recon iff parse_recognize::<Value>(s, false) accepts it; equality of parsed values is Value::eq");
    ctx.assume("hash agreement is checked with two hashers (SipHash DefaultHasher and an FNV byte hasher)");
    ctx.assume("MapBackpressure (swimos_runtime verif-hooks re-export) uses the private ReconKey internally; its HashMap uses RandomState, which cannot turn a correct comparison into a failure");
    // bounded exhaustive: all pairs of small structural skeletons (canonical rendering)
    let max_nodes = ctx.pick(4, 5);
    let mut memo = vec![];
    let mut skel: Vec<String> = vec![];
    for n in 1..=max_nodes {
        for v in skeletons(n, &mut memo) {
            skel.push(render(&v, &[]));
        }
    }
    skel.sort();
    skel.dedup();
    println!("C15: {} skeleton texts ({} ordered pairs)", skel.len(), skel.len() * (skel.len() + 1) / 2);
    {
        let skel = &skel;
        let n = skel.len();
        ctx.enumerate(
            "skeleton-pairs",
            |w, ws| {
                (0..n)
                    .filter(move |i| i % ws == w)
                    .flat_map(move |i| (i..n).map(move |j| TextPair(skel[i].clone(), skel[j].clone())))
            },
            |c| guard(check_text_pair, c),
        );
    }
    {
        let skel = &skel;
        let n = skel.len();
        ctx.enumerate(
            "backpressure-skeletons",
            |w, ws| {
                (0..n)
                    .filter(move |i| i % ws == w)
                    .flat_map(move |i| (i..n).map(move |j| TextPair(skel[i].clone(), skel[j].clone())))
            },
            |c| guard(check_backpressure_texts, c),
        );
    }
    ctx.prop("pairs", ctx.pick(350_000, 20_000_000), arb_pair, |c| guard(check_pair, c));
    ctx.prop("backpressure-keys", ctx.pick(100_000, 4_000_000), arb_pair, |c| guard(check_backpressure, c));
    ctx.finish();
}
