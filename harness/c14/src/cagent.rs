//! Agent for the "agent-sent commands" sub-check: one control lane that runs harness supplied
//! programs; every step of a program sends one command to one of the target endpoints through one
//! of the four public ways an agent can send a command:
//!   * `HandlerContext::send_command`                      (ad hoc, overwritable)
//!   * `SendCommand::new(addr, value, false)`               (ad hoc, not overwritable)
//!   * `HandlerContext::create_commander` + `Commander::send`        (registered, overwritable)
//!   * `HandlerContext::create_commander` + `Commander::send_queued` (registered, not overwritable)
//!   * a commander that is created once and *kept* (`Held` / `HeldQueued`): either in `on_start`
//!     (`CShared::start_cmdrs`, in the given order) or by the first run-time send to that target; later
//!     sends reuse the stored `Commander` without registering again, so the id -> address binding made at
//!     creation time has to survive commanders created later for other addresses (in both phases).
//! Every send is recorded (with the global sequence number) immediately before it is executed.

use parking_lot::Mutex;
use serde::{Deserialize, Serialize};
use std::collections::HashMap;
use std::sync::atomic::{AtomicU64, Ordering};
use std::sync::Arc;
use swimos::agent::agent_lifecycle::HandlerContext;
use swimos::agent::agent_model::AgentModel;
use swimos::agent::event_handler::{
    ActionContext, EventHandler, HandlerAction, HandlerActionExt, Sequentially, StepResult,
};
use swimos::agent::lanes::CommandLane;
use swimos::agent::{lifecycle, projections, AgentLaneModel};
use swimos_agent::commander::{Commander, SendCommandById};
use swimos_agent::event_handler::SendCommand;
use swimos_api::address::Address;

#[projections]
#[derive(AgentLaneModel)]
pub struct CmdAgent {
    ctl: CommandLane<i32>,
}

/// The target endpoints (host, node, lane). 0,1,5 are local (one runtime output channel per
/// endpoint); 2,3 share a remote host (one channel, two lane buffers); 4 is another remote host.
pub const TARGETS: [(Option<&str>, &str, &str); 6] = [
    (None, "/target/0", "in"),
    (None, "/target/1", "in"),
    (Some("ws://remote-a:9001"), "/r/a", "x"),
    (Some("ws://remote-a:9001"), "/r/b", "y"),
    (Some("ws://remote-b:9001"), "/r/a", "x"),
    (None, "/target/0", "other"),
];

/// Key (as printed by `vsim::links::key_string`) of the runtime output a target is sent through.
pub fn target_key(t: usize) -> String {
    let (host, node, lane) = TARGETS[t];
    match host {
        Some(h) => format!("remote:{}", h),
        None => format!("local:{}|{}", node, lane),
    }
}

#[derive(Clone, Copy, Debug, PartialEq, Eq, Serialize, Deserialize)]
pub enum Api {
    AdHoc,
    AdHocQueued,
    Cmdr,
    CmdrQueued,
    Held,
    HeldQueued,
}

impl Api {
    pub fn overwritable(&self) -> bool {
        matches!(self, Api::AdHoc | Api::Cmdr | Api::Held)
    }
    /// Even indices are overwritable, odd ones are not.
    pub fn from_index(i: u8) -> Api {
        match i % 6 {
            0 => Api::AdHoc,
            1 => Api::AdHocQueued,
            2 => Api::Cmdr,
            3 => Api::CmdrQueued,
            4 => Api::Held,
            _ => Api::HeldQueued,
        }
    }
}

#[derive(Clone, Debug, PartialEq, Eq)]
pub struct CAct {
    /// Index into `TARGETS`.
    pub t: usize,
    pub v: i64,
    pub api: Api,
}

#[derive(Clone, Debug, PartialEq, Eq)]
pub enum CEv {
    ProgBegin { idx: i32 },
    ProgEnd { idx: i32 },
    Sent { t: usize, v: i64, ow: bool },
    /// A command sent through the kept commander number `idx` of the boundary regime.
    BigSent { idx: u32, v: i64, ow: bool },
    /// `create_commander` for `/many/<idx>` failed (CommanderIdOverflow).
    RegFailed { idx: u32 },
}

/// Control lane values >= BIG_BASE select `CShared::big_programs[value - BIG_BASE]`.
pub const BIG_BASE: i32 = 1_000_000;

/// Steps of the boundary regime (ids around the end of the u16 commander id space). Target number n
/// is node `/many/<n>`, lane `in` on the local plane (one runtime output per target that is sent to).
#[derive(Clone, Debug, PartialEq, Eq)]
pub enum BigStep {
    /// Create and keep commanders for targets from..to (one registration each). A failed
    /// registration is recorded; with `propagate` the handler then fails as user code normally would,
    /// otherwise it goes on (so that what was accepted can still be exercised).
    Create { from: u32, to: u32, propagate: bool },
    /// Send through the kept commander of target `idx` (skipped when there is none).
    Send { idx: u32, v: i64, queued: bool },
}

pub fn many_node(idx: u32) -> String {
    format!("/many/{}", idx)
}

pub struct CShared {
    pub clock: Arc<AtomicU64>,
    pub trace: Mutex<Vec<(u64, CEv)>>,
    pub programs: Vec<Vec<CAct>>,
    /// Targets for which `on_start` creates (and keeps) a commander, in this order; with
    /// `Some(v)` it also sends `v` (not overwritable) through the new commander at once.
    pub start_cmdrs: Vec<(usize, Option<i64>)>,
    /// The kept commanders, by target.
    pub held: Mutex<HashMap<usize, Commander<CmdAgent>>>,
    pub big_programs: Vec<Vec<BigStep>>,
    pub held_many: Mutex<HashMap<u32, Commander<CmdAgent>>>,
}

impl CShared {
    pub fn new(
        clock: Arc<AtomicU64>,
        programs: Vec<Vec<CAct>>,
        start_cmdrs: Vec<(usize, Option<i64>)>,
    ) -> Arc<CShared> {
        Arc::new(CShared {
            clock,
            trace: Mutex::new(vec![]),
            programs,
            start_cmdrs,
            held: Mutex::new(HashMap::new()),
            big_programs: vec![],
            held_many: Mutex::new(HashMap::new()),
        })
    }
    pub fn new_big(clock: Arc<AtomicU64>, big_programs: Vec<Vec<BigStep>>) -> Arc<CShared> {
        Arc::new(CShared {
            clock,
            trace: Mutex::new(vec![]),
            programs: vec![],
            start_cmdrs: vec![],
            held: Mutex::new(HashMap::new()),
            big_programs,
            held_many: Mutex::new(HashMap::new()),
        })
    }
    fn rec(&self, ev: CEv) {
        let s = self.clock.fetch_add(1, Ordering::SeqCst);
        self.trace.lock().push((s, ev));
    }
    pub fn trace(&self) -> Vec<(u64, CEv)> {
        self.trace.lock().clone()
    }
}

#[derive(Clone)]
pub struct CmdLifecycle {
    pub shared: Arc<CShared>,
}

type Ctx = HandlerContext<CmdAgent>;

fn act_handler(
    context: Ctx,
    sh: Arc<CShared>,
    act: CAct,
) -> Box<dyn EventHandler<CmdAgent> + Send + 'static> {
    let CAct { t, v, api } = act;
    let (host, node, lane) = TARGETS[t];
    let sh_held = sh.clone();
    let record = context.effect(move || {
        sh.rec(CEv::Sent {
            t,
            v,
            ow: api.overwritable(),
        })
    });
    match api {
        Api::AdHoc => Box::new(record.followed_by(context.send_command(host, node, lane, v))),
        Api::AdHocQueued => Box::new(record.followed_by(SendCommand::new(
            Address::text(host, node, lane),
            v,
            false,
        ))),
        Api::Cmdr => Box::new(
            record.followed_by(
                context
                    .create_commander(host, node, lane)
                    .and_then(move |c: Commander<CmdAgent>| c.send(v)),
            ),
        ),
        Api::CmdrQueued => Box::new(
            record.followed_by(
                context
                    .create_commander(host, node, lane)
                    .and_then(move |c: Commander<CmdAgent>| c.send_queued(v)),
            ),
        ),
        Api::Held | Api::HeldQueued => Box::new(record.followed_by(HeldSend {
            sh: sh_held,
            t,
            v,
            queued: api == Api::HeldQueued,
            inner: None,
        })),
    }
}

/// Send through the commander kept for the target; the first such send creates and keeps it. The
/// lookup happens when the step runs (earlier steps of the same program may have created it).
struct HeldSend {
    sh: Arc<CShared>,
    t: usize,
    v: i64,
    queued: bool,
    inner: Option<Box<dyn EventHandler<CmdAgent> + Send + 'static>>,
}

fn send_through(c: Commander<CmdAgent>, v: i64, queued: bool) -> SendCommandById<i64> {
    if queued {
        c.send_queued(v)
    } else {
        c.send(v)
    }
}

impl HandlerAction<CmdAgent> for HeldSend {
    type Completion = ();

    fn step(
        &mut self,
        action_context: &mut ActionContext<CmdAgent>,
        meta: swimos_agent::AgentMetadata,
        context: &CmdAgent,
    ) -> StepResult<Self::Completion> {
        if self.inner.is_none() {
            let (t, v, queued) = (self.t, self.v, self.queued);
            let existing = self.sh.held.lock().get(&t).copied();
            let h: Box<dyn EventHandler<CmdAgent> + Send + 'static> = match existing {
                Some(c) => Box::new(send_through(c, v, queued)),
                None => {
                    let (host, node, lane) = TARGETS[t];
                    let hc: Ctx = HandlerContext::default();
                    let sh = self.sh.clone();
                    Box::new(hc.create_commander(host, node, lane).and_then(
                        move |c: Commander<CmdAgent>| {
                            sh.held.lock().insert(t, c);
                            send_through(c, v, queued)
                        },
                    ))
                }
            };
            self.inner = Some(h);
        }
        self.inner
            .as_mut()
            .expect("set above")
            .step(action_context, meta, context)
    }
}

struct CreateMany {
    sh: Arc<CShared>,
    next: u32,
    to: u32,
    propagate: bool,
}

impl HandlerAction<CmdAgent> for CreateMany {
    type Completion = ();

    fn step(
        &mut self,
        action_context: &mut ActionContext<CmdAgent>,
        meta: swimos_agent::AgentMetadata,
        context: &CmdAgent,
    ) -> StepResult<Self::Completion> {
        let hc: Ctx = HandlerContext::default();
        while self.next < self.to {
            let i = self.next;
            self.next += 1;
            let node = many_node(i);
            let mut h = hc.create_commander(None, node.as_str(), "in");
            match h.step(action_context, meta, context) {
                StepResult::Complete { result, .. } => {
                    self.sh.held_many.lock().insert(i, result);
                }
                StepResult::Fail(e) => {
                    self.sh.rec(CEv::RegFailed { idx: i });
                    if self.propagate {
                        return StepResult::Fail(e);
                    }
                }
                StepResult::Continue { .. } => {}
            }
        }
        StepResult::done(())
    }
}

struct BigSend {
    sh: Arc<CShared>,
    idx: u32,
    v: i64,
    queued: bool,
    inner: Option<SendCommandById<i64>>,
    skipped: bool,
}

impl HandlerAction<CmdAgent> for BigSend {
    type Completion = ();

    fn step(
        &mut self,
        action_context: &mut ActionContext<CmdAgent>,
        meta: swimos_agent::AgentMetadata,
        context: &CmdAgent,
    ) -> StepResult<Self::Completion> {
        if self.inner.is_none() && !self.skipped {
            let existing = self.sh.held_many.lock().get(&self.idx).copied();
            match existing {
                Some(c) => {
                    self.sh.rec(CEv::BigSent {
                        idx: self.idx,
                        v: self.v,
                        ow: !self.queued,
                    });
                    self.inner = Some(send_through(c, self.v, self.queued));
                }
                None => self.skipped = true,
            }
        }
        match self.inner.as_mut() {
            Some(h) => HandlerAction::<CmdAgent>::step(h, action_context, meta, context),
            None => StepResult::done(()),
        }
    }
}

fn big_handler(sh: Arc<CShared>, step: BigStep) -> Box<dyn EventHandler<CmdAgent> + Send + 'static> {
    match step {
        BigStep::Create { from, to, propagate } => Box::new(CreateMany {
            sh,
            next: from,
            to,
            propagate,
        }),
        BigStep::Send { idx, v, queued } => Box::new(BigSend {
            sh,
            idx,
            v,
            queued,
            inner: None,
            skipped: false,
        }),
    }
}

#[lifecycle(CmdAgent)]
impl CmdLifecycle {
    #[on_start]
    fn on_start(&self, context: Ctx) -> impl EventHandler<CmdAgent> {
        let steps: Vec<Box<dyn EventHandler<CmdAgent> + Send + 'static>> = self
            .shared
            .start_cmdrs
            .iter()
            .map(|(t, first)| {
                let (t, first) = (*t, *first);
                let (host, node, lane) = TARGETS[t];
                let sh = self.shared.clone();
                let h: Box<dyn EventHandler<CmdAgent> + Send + 'static> = Box::new(
                    context.create_commander(host, node, lane).and_then(
                        move |c: Commander<CmdAgent>| {
                            sh.held.lock().insert(t, c);
                            let send: Option<SendCommandById<i64>> = first.map(|v| {
                                sh.rec(CEv::Sent { t, v, ow: false });
                                c.send_queued(v)
                            });
                            HandlerActionExt::<CmdAgent>::discard(send)
                        },
                    ),
                );
                h
            })
            .collect();
        Sequentially::new(steps)
    }

    #[on_command(ctl)]
    fn on_ctl(&self, context: Ctx, value: &i32) -> impl EventHandler<CmdAgent> {
        let sh = self.shared.clone();
        let idx = *value;
        let prog: Vec<CAct> = sh
            .programs
            .get(idx.max(0) as usize)
            .cloned()
            .unwrap_or_default();
        let (sh1, sh2) = (sh.clone(), sh.clone());
        let steps: Vec<Box<dyn EventHandler<CmdAgent> + Send + 'static>> = if idx >= BIG_BASE {
            sh.big_programs
                .get((idx - BIG_BASE) as usize)
                .cloned()
                .unwrap_or_default()
                .into_iter()
                .map(|st| big_handler(sh.clone(), st))
                .collect()
        } else {
            prog.into_iter()
                .map(|a| act_handler(context, sh.clone(), a))
                .collect()
        };
        context
            .effect(move || sh1.rec(CEv::ProgBegin { idx }))
            .followed_by(Sequentially::new(steps))
            .followed_by(context.effect(move || sh2.rec(CEv::ProgEnd { idx })))
    }
}

pub fn make_cmd_agent(shared: Arc<CShared>) -> impl swimos::api::Agent + Send + 'static {
    let lifecycle = CmdLifecycle { shared };
    AgentModel::new(CmdAgent::default, lifecycle.into_lifecycle())
}
