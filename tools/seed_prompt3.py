#!/usr/bin/env python3
"""Round-2 prompt: like seed_prompt.py but lists the round-1 changes (which were all detected) and asks for different, subtler ones."""
import json, sys, glob, subprocess
pid = sys.argv[1]
base = subprocess.run(['python3','/verif/tools/seed_prompt.py',pid],capture_output=True,text=True).stdout
base = base.replace(f'/tmp/seed/{pid}', f'/tmp/seed3/{pid}')
prev=[]
for d in sorted(glob.glob(f'/verif/seeded/{pid}-*')):
    try:
        m=json.load(open(d+'/meta.json'))
        prev.append(f"  - {', '.join(m.get('files_changed',[])[:2])}: {m.get('breaks','')[:300]} (needed: {m.get('needs_to_manifest','')[:200]})")
    except Exception: pass
extra = "\n\nIMPORTANT — this is a THIRD round. Two earlier rounds of seeded changes for this property were all eventually detected by the hidden harness, many within seconds. Those were:\n" + "\n".join(prev) + "\n\nProduce changes that are DIFFERENT from these (other code sites, other clauses of the property, other mechanisms) and SUBTLER: think about what a generated-input / model-based test harness is likely to under-sample — rare configuration values, long sequences, large sizes or counts (boundaries like 64/256/4096/8192 bytes, u32/usize limits), interactions between two features (e.g. two lanes, two remotes, lane kinds mixed), unusual but legal orders of API calls, state that survives a restart or relink, error paths, timing windows around timeouts and shutdown — while still being a realistic developer mistake that breaks the stated property and keeps the existing tests green. Same deliverables as described above, under " + f"/tmp/seed3/{pid}/out/<n>/.\n"
print(base+extra)
